//! C09 — background compaction never loses or resurrects rows under concurrency (DESIGN §5.9).
//!
//! Same owned scheduler as C08 (`sched.rs`). Workload: 2-3 tables with several row-sets, 2-3
//! client sessions; a session inserts fresh unique ids and deletes ids of initial rows (each
//! claimed by one DELETE of the whole workload) or ids it inserted — and got acknowledged —
//! earlier, so the final model does not depend on the schedule: acknowledged inserts minus
//! acknowledged deletes. Compactor passes are triggered by clock actions and interleaved with
//! the statements at the gates (after pin, around the per-table lock, before/after the swap
//! commit, inside the version manager's commit).
//!
//! Oracle, at three checkpoints (all actors finished + quiescence; after two more passes;
//! after shutdown + reopen on a real directory): `select id, v` of every table
//!  * contains every initial / acknowledged-inserted row that no DELETE named  (else row lost),
//!  * contains no row an acknowledged DELETE named                             (else resurrected),
//!  * contains no id twice, and nothing that was never inserted.
//! Rows of statements that were not acknowledged may or may not be there.
//!
//! Open finding F-C09-delete-overlaps-compaction: a resurrected row is attributed to it only if
//! the DELETE that named the row was in flight (executor built … delete vector committed) while
//! a compactor pass held its pinned snapshot and then committed a compaction of the same table.
//! Everything else — lost insert, duplicate, invented row, a resurrected row without that
//! overlap — is a violation. While the finding is open, 3 of 4 cases keep DELETEs and compactor
//! passes over the same table apart by construction (strict oracle), 1 of 4 explores the full
//! space and relies on the attribution.

use std::collections::{BTreeMap, BTreeSet};

use proptest::prelude::*;

use super::sched::*;
use crate::engine::*;
use crate::gens::tape::{Tape, tape_strategy};
use crate::sqlrun::*;

pub const AVOID_SWITCH: &str = "gen.c09.delete_overlapping_compaction";
pub const KNOWN_SIG: &str = "c09:delete-overlaps-compaction-of-same-table:row-resurrected";

fn strat(ctx: &Ctx) -> impl Strategy<Value = Workload> + use<> {
    let off = ctx.off(AVOID_SWITCH);
    (tape_strategy(128), tape_strategy(200), sched_disk_strategy()).prop_map(move |(wt, choices, disk)| {
        let mut t = Tape::new(&wt);
        let avoid = off && !t.chance(1, 4);
        let p = GenParams {
            tables: (2, 3),
            sessions: (2, 3),
            stmts: (2, 4),
            readers: (0, 0),
            ticks: (1, 3),
            allow_drop: false,
            avoid,
            avoid_drop: false,
            allow_reopen: true,
            overlap_deletes: true,
        };
        gen_workload(&mut t, &p, disk, choices)
    })
}

fn acked(s: &StmtRun) -> bool {
    matches!(s.out, Some(Out::Rows(_)))
}

/// Does the lifetime of statement `s` overlap a compactor pass that pinned its snapshot and
/// committed a compaction of table `tid`? Returns the ordering class of the first such overlap.
fn overlap(run: &Run, s: &StmtRun, tid: u32) -> Option<&'static str> {
    let start = s.start_seq?;
    let end = s.commit_seq.or(s.finish_seq).unwrap_or(u64::MAX);
    for c in run.compactions.iter().filter(|c| c.table == tid) {
        if c.pin_seq < end && start < c.commit_seq {
            return Some(match (start < c.pin_seq, end < c.commit_seq) {
                (true, true) => "stmt-starts-before-pin-commits-before-swap",
                (true, false) => "pass-inside-stmt",
                (false, true) => "stmt-inside-pass",
                (false, false) => "stmt-starts-after-pin-commits-after-swap",
            });
        }
    }
    None
}

fn judge(w: &Workload, run: &Run, st: &mut Stats) -> Verdict {
    let ctxt = |run: &Run| {
        let outs: Vec<String> = run.stmts.iter().map(|s| format!("{} => {}", s.sql, s.out.as_ref().map(|o| o.brief()).unwrap_or("unfinished".into()))).collect();
        format!("\n  statements: {outs:?}\n  trace: {}\n  panics: {:?}", fmt_trace(run, 500), run.panics)
    };
    if let Some(e) = &run.setup_error {
        return fail("c09:setup", format!("loading the tables failed: {e}"));
    }
    // ---- classes / non-triviality
    st.class(if w.disk.inmem { "io-inmem" } else { "io-real-directory" });
    st.class(if w.avoid { "delete-kept-apart-from-compaction" } else { "full-interleaving" });
    {
        // two DELETEs of different sessions naming the same row
        let mut seen: BTreeMap<(usize, i32), usize> = BTreeMap::new();
        let mut overlap = false;
        for (si, sess) in w.sessions.iter().enumerate() {
            for s in sess {
                if let Stmt::Delete { t, ids, .. } = s {
                    for i in ids {
                        if *seen.entry((*t, *i)).or_insert(si) != si {
                            overlap = true;
                        }
                    }
                }
            }
        }
        if overlap {
            st.class("deletes-naming-the-same-rows");
        }
    }
    if w.avoid {
        st.excluded(AVOID_SWITCH);
    }
    let mut kinds: BTreeSet<(&'static str, bool, &'static str)> = BTreeSet::new();
    for s in &run.stmts {
        for (ti, tid) in run.table_ids.iter().enumerate() {
            if let Some(o) = overlap(run, s, *tid) {
                kinds.insert((s.stmt.kind(), ti == s.stmt.table(), o));
            }
        }
    }
    for (k, same, o) in &kinds {
        st.class(&format!("{k}-overlaps-compaction-of-{}-table", if *same { "same" } else { "other" }));
        st.class(&format!("overlap:{o}"));
    }
    if !run.compactions.is_empty() {
        st.class("schedule-has-compaction-commit");
    }
    if run.compactions.iter().map(|c| c.table).collect::<BTreeSet<_>>().len() >= 2 {
        st.class("compactions-on-two-tables");
    }
    // a pass skipped a table because a DELETE held its lock
    if run.stmts.iter().any(|s| !acked(s)) {
        st.class("statement-not-acknowledged");
    }
    if !kinds.is_empty() {
        st.nontrivial((w.tables.len(), w.disk.inmem, w.avoid, kinds.clone()));
    }
    if run.drained > 0 {
        st.class("choice-vector-exhausted");
    }

    // ---- crashes, deadlock
    if let Some(d) = &run.deadlock {
        return fail("c09:deadlock", format!("{d}{}", ctxt(run)));
    }
    if let Some(p) = &run.compactor_died {
        return fail(format!("c09:compactor-died:{}", psig(p)), format!("the compactor task panicked inside a pass: {p}{}", ctxt(run)));
    }
    if let Some(p) = run.panics.first() {
        return fail(format!("c09:panic:{}", psig(p)), format!("a task panicked during the schedule: {p}{}", ctxt(run)));
    }
    if run.stmts.iter().any(|s| s.out.is_none()) {
        return fail("c09:statement-never-finished", format!("a statement did not finish although everything ran free at the end{}", ctxt(run)));
    }
    if let Some(e) = &run.shutdown_error {
        return fail("c09:shutdown-failed", format!("{e}{}", ctxt(run)));
    }
    if let Some(e) = &run.reopen_error {
        return fail("c09:reopen-failed", format!("{e}{}", ctxt(run)));
    }

    // ---- the model
    let names = ["after-schedule", "after-two-more-passes", "after-reopen"];
    let mut known: Option<String> = None;
    for (cp, tables) in run.final_rows.iter().enumerate() {
        for (t, res) in tables.iter().enumerate() {
            let spec = &w.tables[t];
            let rows = match res {
                Ok(r) => r,
                Err(e) => return fail(format!("c09:final-read-failed:{}", names[cp]), format!("select from {} {}: {e}{}", spec.name, names[cp], ctxt(run))),
            };
            // id -> v of everything that was ever (attempted to be) inserted
            let mut universe: BTreeMap<i64, i64> = BTreeMap::new();
            let mut must: BTreeSet<i64> = BTreeSet::new();
            for r in spec.init.iter().flatten() {
                if !spec.init_delete.contains(&r.0) {
                    universe.insert(r.0 as i64, r.1 as i64);
                    must.insert(r.0 as i64);
                }
            }
            // id -> the DELETE that named it
            let mut named: BTreeMap<i64, Vec<&StmtRun>> = BTreeMap::new();
            for s in &run.stmts {
                match &s.stmt {
                    Stmt::Insert { t: tt, rows } if *tt == t => {
                        for r in rows {
                            universe.insert(r.0 as i64, r.1 as i64);
                            if acked(s) {
                                must.insert(r.0 as i64);
                            }
                        }
                    }
                    _ => {}
                }
            }
            for s in &run.stmts {
                if let Stmt::Delete { t: tt, ids, .. } = &s.stmt {
                    if *tt == t {
                        for i in ids {
                            must.remove(&(*i as i64));
                            named.entry(*i as i64).or_default().push(s);
                        }
                    }
                }
            }
            let describe = |what: String| {
                format!("table {} {}: {what}\n  rows {}{}", spec.name, names[cp], fmt_rows(&sorted(rows.clone())), ctxt(run))
            };
            let mut seen: BTreeSet<i64> = BTreeSet::new();
            for r in rows {
                let (id, v) = match (r.first(), r.get(1)) {
                    (Some(Val::Int(a)), Some(Val::Int(b))) => (*a, *b),
                    _ => return fail("c09:row-invented", describe(format!("unexpected row {}", fmt_rows(std::slice::from_ref(r))))),
                };
                if !seen.insert(id) {
                    return fail(format!("c09:row-duplicated:{}", names[cp]), describe(format!("id {id} appears twice")));
                }
                if universe.get(&id) != Some(&v) {
                    return fail(format!("c09:row-invented:{}", names[cp]), describe(format!("row ({id},{v}) was never inserted")));
                }
                for d in named.get(&id).into_iter().flatten() {
                    if acked(d) {
                        let msg = describe(format!("row ({id},{v}) is back although `{}` was acknowledged", d.sql));
                        if let Some(o) = overlap(run, d, run.table_ids[t]) {
                            known.get_or_insert(format!("{msg}\n  the DELETE overlapped a compaction of the same table ({o})"));
                        } else {
                            return fail(format!("c09:row-resurrected:{}", names[cp]), msg);
                        }
                    }
                }
            }
            if let Some(id) = must.iter().find(|i| !seen.contains(i)) {
                let what = if *id >= 1000 { "acknowledged-insert-lost" } else { "initial-row-lost" };
                return fail(format!("c09:{what}:{}", names[cp]), describe(format!("row with id {id} is missing (no DELETE named it)")));
            }
        }
    }
    if let Some(msg) = known {
        return fail(KNOWN_SIG, msg);
    }
    Verdict::Pass
}

fn test(ctx: &Ctx, w: &Workload, st: &mut Stats) -> Verdict {
    let run = run_workload(ctx, w, "c09");
    st.evals(run.stmts.len() as u64 + run.final_rows.iter().map(|v| v.len() as u64).sum::<u64>());
    judge(w, &run, st)
}

pub fn def() -> PropDef {
    PropDef {
        id: "C09",
        level: "exploration",
        rule: "tape-generated workload (2-3 tables with 1-4 row-sets and delete vectors, 2-3 client sessions of 2-4 INSERT (fresh ids) / DELETE (initial ids or ids acknowledged earlier in the session) statements, 1-3 compactor passes; in-memory I/O in 3 of 4, real directory + reopen else) + a 200-element choice vector driving the owned scheduler over the parking subset of 15 gates; non-trivial = the lifetime of a client statement overlaps a compactor pass (pin .. swap commit) that committed a compaction; distinct by (tables, I/O backend, avoidance flag, set of (statement kind, same/other table, ordering of start/pin/commit/swap))",
        assumptions: vec![
            "interleavings are explored at gate granularity on one thread (no data races)",
            "acknowledged = the statement returned Ok; rows of unacknowledged statements are unconstrained",
            "quiescence is read from the tokio runtime metrics (run queues empty, blocking pool idle)",
        ],
        min_nontrivial: 50,
        parts: vec![part("schedules", 20_000, 450_000, strat, test)],
    }
}
