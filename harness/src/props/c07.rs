//! C07 — deletes are exact and permanent; compaction is invisible.
//! Histories of insert / delete-where / tick / reopen on one or two tables; after every step
//! every table is compared with the table model (see hist.rs).

use super::hist::*;
use crate::engine::*;

pub fn def() -> PropDef {
    PropDef {
        id: "C07",
        level: "exploration",
        rule: "tape-generated history (8-44 ops in part 'hist', 8-96 in part 'long') over a real directory with generated block / row-set size, checksum and cache options on 1-2 tables (with and without primary key): INSERT of 1-300 low-cardinality rows (several inserts = several row-sets; unique scrambled keys so that row-sets overlap in key range), DELETE WHERE (c op const, IS [NOT] NULL, AND/OR, true, no WHERE), TICK (exactly one compactor pass + vacuum on the paused clock), REOPEN, occasional DROP/CREATE. After every step SELECT * of every table = model multiset and keyed tables come back in key order; DELETE reports the model's count; the result before a TICK equals the result after it; at the end the storage is opened directly and every table scanned with ScanOptions::with_sorted(true) (key order + multiset). Non-trivial = a compaction that merged >= 2 row-sets (compaction.commit event) of a table happened after a delete on that table removed rows and the table is non-empty afterwards; distinct by the set of observed classes (delete spanning insert batches, delete on compacted data, delete beyond the first block, compaction to empty, low-cardinality/dictionary compaction, compaction at open/shutdown, ...), options, key presence and counts of reopens/compactions",
        assumptions: vec![
            "the table model (multisets + three-valued predicate interpreter) is the reference; a statement counts only if the database acknowledged it",
            "a SQL scan that includes the primary key, and Transaction::scan with with_sorted(true), are the 'ordered scans' of the property",
        ],
        min_nontrivial: 100,
        parts: vec![
            part("hist", 6000, 110_000, |ctx| strategy(ctx, Which::C07, OPS_SHORT), |ctx, case, st| run_history(ctx, case, Which::C07, st)),
            part("long", 700, 14_000, |ctx| strategy(ctx, Which::C07, OPS_LONG), |ctx, case, st| run_history(ctx, case, Which::C07, st)),
        ],
    }
}
