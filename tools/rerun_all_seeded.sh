#!/bin/bash
# tools/rerun_all_seeded.sh: run the quick tier of the property's check against every seeded change again
# (after generator changes) and list the ones that are no longer caught.
cd /verif
for d in seeded/c*-*/; do
  d=${d%/}
  P=$(python3 -c "import json;print(json.load(open('$d/meta.json'))['property'])")
  out=$(tools/run_seeded.sh $d $P 2>&1 | tail -1)
  echo "$(basename $d) $out"
done
