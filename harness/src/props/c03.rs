//! C03 — acknowledged changes survive a clean shutdown and reopen.
//! Histories of DDL/DML/tick/reopen over a real directory with generated storage options; after
//! every reopen the catalog and every table are compared with the table model (see hist.rs).

use super::hist::*;
use crate::engine::*;

pub fn def() -> PropDef {
    PropDef {
        id: "C03",
        level: "exploration",
        rule: "tape-generated history (8-44 ops in part 'hist', 8-96 in part 'long', one tape slot per op) over a real directory with generated block / row-set size, checksum and cache options: CREATE/DROP TABLE (1-4 columns int/varchar/boolean, optional primary key, NOT NULL; drop + recreate of the same name), CREATE VIEW / INDEX / FUNCTION and DROP VIEW (they perturb id allocation), INSERT of 1-300 low-cardinality rows (unique scrambled keys), DELETE WHERE (c op const, IS [NOT] NULL, AND/OR, true, no WHERE), statements that must be refused, TICK (one compactor pass + vacuum on the paused clock), REOPEN (shutdown + new_on_disk on the same path). After every reopen: open succeeded, pg_tables = model tables, pg_attribute = model definition, SELECT * = model multiset (keyed tables in key order), then an INSERT and a DELETE on every table must be acknowledged. Non-trivial = at least one reopen after a committed insert with at least one row in the reopened database; distinct by the set of observed classes (compaction before/at/after open, delete vector alive at shutdown, several row-sets, views alive, drop+recreate, non-table object between two tables, ...), options and counts of reopens/compactions/tables",
        assumptions: vec![
            "the table model (multisets + three-valued predicate interpreter) is the reference; a statement counts only if the database acknowledged it",
            "views, indexes and functions are not required to survive a reopen (they only take part as history elements)",
            "pg_catalog.pg_tables / pg_attribute report the catalog truthfully",
        ],
        min_nontrivial: 100,
        parts: vec![
            part("hist", 6000, 110_000, |ctx| strategy(ctx, Which::C03, OPS_SHORT), |ctx, case, st| run_history(ctx, case, Which::C03, st)),
            part("long", 700, 14_000, |ctx| strategy(ctx, Which::C03, OPS_LONG), |ctx, case, st| run_history(ctx, case, Which::C03, st)),
        ],
    }
}
