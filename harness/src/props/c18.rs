//! C18 — corrupted column data is detected, not returned (fault enumeration).
//!
//! One case = a generated database shape (table A: k INT [PRIMARY KEY], s VARCHAR [NOT NULL],
//! optional nullable INT/BIGINT column; table B), a batch of mutations of A's `*.col` / `*.idx`
//! files and a query sequence. The database is built once on a real directory with CRC32
//! checksums; every mutation is applied to a fresh copy which is then opened and queried in a
//! child process (`rlv c18-child`), because a corrupted index can abort the whole process.
//!
//! Oracle (independent of the code under test): a row model of A and B. Every A-query on a
//! mutated copy must fail or return exactly the model rows; every B-query must return the model
//! rows. The pristine copy must return the model rows for every query.
use std::collections::BTreeSet;
use std::path::{Path, PathBuf};
use std::time::{Duration, Instant};

use proptest::prelude::*;
use serde::{Deserialize, Serialize};

use crate::engine::*;
use crate::sqlrun::*;

// ---------------------------------------------------------------------------------------------
// case

type ARow = (i32, Option<String>, Option<i64>);

#[derive(Clone, Debug, Serialize, Deserialize)]
pub struct Shape {
    pub block: usize,
    pub rowset: usize,
    pub pk: bool,
    pub s_null: bool,
    /// 0: two columns, 1: third column `n INT`, 2: `n BIGINT` (nullable)
    pub third: u8,
    pub rows: Vec<ARow>,
    /// cut points (scaled) splitting the rows over 1..=3 INSERT statements
    pub cuts: Vec<u16>,
    /// build ends with `shutdown` (one more compaction pass) or like a killed process
    pub clean: bool,
    pub b_rows: Vec<(i32, Option<String>)>,
}

#[derive(Clone, Debug, Serialize, Deserialize, PartialEq)]
pub enum Pos {
    /// position = frac * len >> 16
    Frac(u16),
    /// counted back from the end of the file
    End(u8),
    /// counted back from the end of block (scaled index); `.idx`: like End
    Trailer(u16, u8),
    /// (frac * len >> 16) + offset, clamped to the file
    FracPlus(u16, u8),
}

#[derive(Clone, Debug, Serialize, Deserialize, PartialEq)]
pub enum MutKind {
    Flip(Pos, u8),
    Over(Pos, Vec<u8>),
    /// new length = position (+1)
    Trunc(Pos, bool),
    ZeroSuffix(Pos),
    /// 4-byte overwrite inside checksummed bytes chosen so that the CRC-32 changes by exactly
    /// the given non-zero delta (index into `DELTAS`)
    Collide(Pos, u8),
}

#[derive(Clone, Debug, Serialize, Deserialize)]
pub struct MutSpec {
    /// an index file (`.idx`) or a data file (`.col`)
    pub idx: bool,
    /// scaled index into the sorted list of A's files of that kind
    pub file: u16,
    pub kind: MutKind,
    pub small_cache: bool,
}

#[derive(Clone, Debug, Serialize, Deserialize, PartialEq)]
pub enum Op {
    All,
    Col(u8),
    Count,
    Range(u16, u16),
    Tick,
    Ins,
    B,
}

#[derive(Clone, Debug, Serialize, Deserialize)]
pub struct Case {
    pub shape: Shape,
    pub muts: Vec<MutSpec>,
    pub ops: Vec<Op>,
}

const DELTAS: [u32; 8] = [
    0x0000_0001,
    0x0000_8000,
    0x0001_0000,
    0x8000_0000,
    0xFFFF_0000,
    0x0000_FFFF,
    0xFF00_0000,
    0x00FF_FF00,
];

// ---------------------------------------------------------------------------------------------
// generators

fn pos_strategy() -> impl Strategy<Value = Pos> {
    prop_oneof![
        4 => any::<u16>().prop_map(Pos::Frac),
        3 => (0u8..40).prop_map(Pos::End),
        3 => (any::<u16>(), 0u8..20).prop_map(|(b, e)| Pos::Trailer(b, e)),
    ]
}

fn mut_strategy() -> impl Strategy<Value = MutSpec> {
    let fill = prop_oneof![
        (1usize..=16).prop_map(|n| vec![0u8; n]),
        (1usize..=16).prop_map(|n| vec![0xffu8; n]),
        prop::collection::vec(any::<u8>(), 1..=16),
    ];
    let kind = prop_oneof![
        8 => (pos_strategy(), 0u8..8).prop_map(|(p, b)| MutKind::Flip(p, b)),
        5 => (pos_strategy(), fill).prop_map(|(p, d)| MutKind::Over(p, d)),
        2 => (pos_strategy(), any::<bool>()).prop_map(|(p, b)| MutKind::Trunc(p, b)),
        2 => pos_strategy().prop_map(MutKind::ZeroSuffix),
        3 => (any::<u16>(), 0u8..8).prop_map(|(p, d)| MutKind::Collide(Pos::Frac(p), d)),
    ];
    (prop::bool::weighted(0.3), any::<u16>(), kind, any::<bool>()).prop_map(|(idx, file, kind, small_cache)| MutSpec { idx, file, kind, small_cache })
}

fn str_strategy(lowcard: bool) -> BoxedStrategy<Option<String>> {
    if lowcard {
        prop_oneof![1 => Just(None), 4 => prop::sample::select(vec!["a", "b"]).prop_map(|s| Some(s.to_string()))].boxed()
    } else {
        prop_oneof![
            2 => Just(None),
            5 => prop::sample::select(vec!["", "a", "b", "ab", "A", "a b", "~", "zzzzzzzzzzzzzzzzzzzzzzzzzzzzzzzzzzzzzzzz"])
                .prop_map(|s| Some(s.to_string())),
            3 => "[a-z0-9 ]{0,14}".prop_map(Some),
        ]
        .boxed()
    }
}

fn row_strategy(lowcard: bool) -> impl Strategy<Value = ARow> {
    let k = if lowcard {
        (0i32..3).boxed()
    } else {
        prop_oneof![
            3 => prop::sample::select(vec![-2147483647, -2147483646, -2, -1, 0, 1, 2, 3, 255, 256, 65536, 2147483646, 2147483647]),
            3 => -100i32..100,
            1 => any::<i32>().prop_map(|x| x.max(-2147483647)),
        ]
        .boxed()
    };
    let n = if lowcard {
        prop_oneof![1 => Just(None), 3 => (0i64..2).prop_map(Some)].boxed()
    } else {
        prop_oneof![
            2 => Just(None),
            3 => prop::sample::select(vec![-9223372036854775807i64, -2147483649, -2147483647, -1, 0, 1, 2, 2147483647, 2147483648, 9223372036854775807]).prop_map(Some),
            3 => (-1000i64..1000).prop_map(Some),
        ]
        .boxed()
    };
    (k, str_strategy(lowcard), n)
}

fn shape_strategy() -> impl Strategy<Value = Shape> {
    (
        prop::sample::select(vec![64usize, 96, 128, 256]),
        prop::sample::select(vec![256usize, 4096, 1 << 20]),
        any::<bool>(),
        any::<bool>(),
        0u8..3,
        prop::bool::weighted(0.3),
        prop::bool::weighted(0.65),
    )
        .prop_flat_map(|(block, rowset, pk, s_null, third, lowcard, clean)| {
            let per = block / 4;
            // few distinct values: the compactor dictionary-encodes what it merges
            let rowset = if lowcard { 1 << 20 } else { rowset };
            (
                prop::collection::vec(row_strategy(lowcard), 3 * per..7 * per),
                prop::collection::vec(any::<u16>(), if lowcard { 1..3 } else { 0..3 }),
                prop::collection::vec((-3i32..4, str_strategy(false)), 1..24),
            )
                .prop_map(move |(mut rows, cuts, b_rows)| {
                    let mut acc = -50i32;
                    for r in rows.iter_mut() {
                        if pk {
                            // strictly increasing keys
                            acc += 1 + r.0.rem_euclid(3);
                            r.0 = acc;
                        }
                        if !s_null && r.1.is_none() {
                            r.1 = Some(String::new());
                        }
                        match third {
                            0 => r.2 = None,
                            1 => r.2 = r.2.map(|x| x.clamp(-2147483647, 2147483647)),
                            _ => {}
                        }
                    }
                    Shape { block, rowset, pk, s_null, third, rows, cuts, clean, b_rows }
                })
        })
}

fn op_strategy() -> impl Strategy<Value = Op> {
    prop_oneof![
        5 => Just(Op::All),
        3 => (0u8..3).prop_map(Op::Col),
        2 => Just(Op::Count),
        3 => (any::<u16>(), any::<u16>()).prop_map(|(a, b)| Op::Range(a.min(b), a.max(b))),
        2 => Just(Op::Tick),
        2 => Just(Op::Ins),
        2 => Just(Op::B),
    ]
}

fn case_strategy() -> impl Strategy<Value = Case> {
    // mutations first: they are shrunk first, which makes every later shrink step cheaper
    (
        prop::collection::vec(mut_strategy(), 1..=16),
        prop::collection::vec(op_strategy(), 2..8),
        shape_strategy(),
    )
        .prop_map(|(muts, ops, shape)| Case { shape, muts, ops })
}

/// Every bit of an 8-byte window of one file, and the truncations inside the window.
fn sweep_strategy() -> impl Strategy<Value = Case> {
    (any::<bool>(), any::<u16>(), any::<u16>(), any::<bool>(), prop::collection::vec(op_strategy(), 2..6), shape_strategy()).prop_map(
        |(idx, file, start, small_cache, ops, shape)| {
            let mut muts = vec![];
            for o in 0..8 {
                for bit in 0..8 {
                    muts.push(MutSpec { idx, file, kind: MutKind::Flip(Pos::FracPlus(start, o), bit), small_cache });
                }
                muts.push(MutSpec { idx, file, kind: MutKind::Trunc(Pos::FracPlus(start, o), false), small_cache });
            }
            Case { shape, muts, ops }
        },
    )
}

/// The executed sequence: the generated ops, plus an A-read if there is none and a final B-read.
fn effective_ops(ops: &[Op]) -> Vec<Op> {
    let mut v = ops.to_vec();
    if !v.iter().any(|o| matches!(o, Op::All | Op::Col(_) | Op::Range(..))) {
        v.push(Op::All);
    }
    if v.last() != Some(&Op::B) {
        v.push(Op::B);
    }
    v
}

// ---------------------------------------------------------------------------------------------
// model

fn ncols(s: &Shape) -> usize {
    if s.third == 0 { 2 } else { 3 }
}

fn arow(s: &Shape, r: &ARow) -> Row {
    let mut v = vec![Val::Int(r.0 as i64), r.1.clone().map(Val::Str).unwrap_or(Val::Null)];
    if s.third != 0 {
        v.push(r.2.map(Val::Int).unwrap_or(Val::Null));
    }
    v
}

fn lit(v: &Val) -> String {
    match v {
        Val::Null => "NULL".into(),
        Val::Int(i) => i.to_string(),
        Val::Str(s) => format!("'{s}'"),
        _ => unreachable!(),
    }
}

fn insert_sql(table: &str, rows: &[Row]) -> String {
    let vals: Vec<String> = rows
        .iter()
        .map(|r| format!("({})", r.iter().map(lit).collect::<Vec<_>>().join(",")))
        .collect();
    format!("insert into {table} values {}", vals.join(","))
}

#[derive(Clone, Debug, Serialize, Deserialize)]
pub enum COp {
    Sql(String),
    Tick,
}

const COLS: [&str; 3] = ["k", "s", "n"];

/// SQL of each op and the model's answer (None: no answer to compare; for `Ins` the answer of
/// the *acknowledged* insert is applied by `Model::ack`).
struct Model {
    rows: Vec<Row>,
    b: Vec<Row>,
    nc: usize,
    pk: bool,
    ins: i64,
}

impl Model {
    fn new(s: &Shape) -> Model {
        Model {
            rows: s.rows.iter().map(|r| arow(s, r)).collect(),
            b: s.b_rows.iter().map(|(k, v)| vec![Val::Int(*k as i64), v.clone().map(Val::Str).unwrap_or(Val::Null)]).collect(),
            nc: ncols(s),
            pk: s.pk,
            ins: 0,
        }
    }
    fn keys(&self) -> Vec<i64> {
        let s: BTreeSet<i64> = self.rows.iter().map(|r| if let Val::Int(k) = r[0] { k } else { 0 }).collect();
        s.into_iter().collect()
    }
    fn new_row(&self) -> Row {
        let k = if self.pk { self.keys().last().copied().unwrap_or(0) + 1 } else { 7 + self.ins };
        let mut r = vec![Val::Int(k), Val::Str("zz".into())];
        if self.nc == 3 {
            r.push(Val::Null);
        }
        r
    }
    fn sql(&self, op: &Op) -> COp {
        match op {
            Op::All => COp::Sql("select * from a".into()),
            Op::Col(c) => COp::Sql(format!("select {} from a", COLS[*c as usize % self.nc])),
            Op::Count => COp::Sql("select count(*) from a".into()),
            Op::Range(lo, hi) => {
                let ks = self.keys();
                if ks.is_empty() {
                    return COp::Sql("select * from a".into());
                }
                let at = |x: u16| ks[(x as usize * ks.len()) >> 16];
                COp::Sql(format!("select * from a where k >= {} and k <= {}", at(*lo), at(*hi)))
            }
            Op::Tick => COp::Tick,
            Op::Ins => COp::Sql(insert_sql("a", &[self.new_row()])),
            Op::B => COp::Sql("select * from b".into()),
        }
    }
    fn expect(&self, op: &Op) -> Option<Vec<Row>> {
        Some(sorted(match op {
            Op::All => self.rows.clone(),
            Op::Col(c) => self.rows.iter().map(|r| vec![r[*c as usize % self.nc].clone()]).collect(),
            Op::Count => vec![vec![Val::Int(self.rows.len() as i64)]],
            Op::Range(lo, hi) => {
                let ks = self.keys();
                if ks.is_empty() {
                    return Some(vec![]);
                }
                let at = |x: u16| ks[(x as usize * ks.len()) >> 16];
                let (l, h) = (at(*lo), at(*hi));
                self.rows.iter().filter(|r| matches!(r[0], Val::Int(k) if k >= l && k <= h)).cloned().collect()
            }
            Op::B => self.b.clone(),
            Op::Tick | Op::Ins => return None,
        }))
    }
    fn ack_insert(&mut self) -> Row {
        let r = self.new_row();
        self.rows.push(r.clone());
        self.ins += 1;
        r
    }
    /// Which of A's columns the op reads for sure.
    fn reads(&self, op: &Op, col: usize) -> bool {
        match op {
            Op::All | Op::Range(..) => true,
            Op::Col(c) => *c as usize % self.nc == col,
            _ => false,
        }
    }
}

// ---------------------------------------------------------------------------------------------
// running a sequence (shared by the child process and the in-process pristine run)

#[derive(Clone, Debug, Default, Serialize, Deserialize)]
pub struct RunRes {
    pub open_failed: Option<String>,
    pub steps: Vec<Out>,
    /// "done" | "died: …" | "cpu-cap" | "wall-cap"
    pub end: String,
}

fn cfg_of(s: &Shape, small_cache: bool) -> DiskCfg {
    DiskCfg { block: s.block, rowset: s.rowset, checksum: true, first_key: true, cache: if small_cache { 1 } else { 1024 }, inmem: false }
}

fn run_ops(cfg: &DiskCfg, dir: &Path, ops: &[COp], close: bool, mut sink: impl FnMut(&Out)) -> Result<(), String> {
    let r = block_on(async {
        let db = open_disk(cfg, dir).await?;
        for op in ops {
            let out = match op {
                COp::Sql(s) => exec(&db, s).await,
                COp::Tick => {
                    tick().await;
                    Out::Rows(vec![])
                }
            };
            sink(&out);
        }
        if close {
            let _ = shutdown(&db).await;
        }
        Ok::<(), String>(())
    });
    match r {
        Ok(x) => x,
        Err(p) => Err(p),
    }
}

/// `rlv c18-child <dir> <cfg-json> <ops-json>`: one JSON line per statement on stdout.
pub fn child_main(args: &[String]) -> ! {
    use std::io::Write;
    set_mem_limit(4 << 30);
    unsafe {
        let lim = libc::rlimit { rlim_cur: 10, rlim_max: 11 };
        libc::setrlimit(libc::RLIMIT_CPU, &lim);
    }
    let dir = PathBuf::from(&args[0]);
    let cfg: DiskCfg = serde_json::from_str(&args[1]).expect("cfg");
    let ops: Vec<COp> = serde_json::from_str(&args[2]).expect("ops");
    let out = std::io::stdout();
    let r = run_ops(&cfg, &dir, &ops, false, |o| {
        let mut l = out.lock();
        let _ = writeln!(l, "{}", serde_json::to_string(o).unwrap());
        let _ = l.flush();
    });
    let mut l = out.lock();
    match r {
        Ok(()) => {
            let _ = writeln!(l, "\"done\"");
        }
        Err(p) => {
            let _ = writeln!(l, "{}", serde_json::to_string(&serde_json::json!({"open_failed": p})).unwrap());
        }
    }
    let _ = l.flush();
    // no shutdown: the parent only looks at the answers
    unsafe { libc::_exit(0) }
}

fn run_child(dir: &Path, cfg: &DiskCfg, ops: &[COp], outfile: &Path) -> RunRes {
    use std::os::unix::process::ExitStatusExt;
    let mut res = RunRes::default();
    res.end = "harness-error".into();
    let (Ok(f), Ok(exe)) = (std::fs::File::create(outfile), std::env::current_exe()) else { return res };
    let spawned = std::process::Command::new(exe)
        .arg("c18-child")
        .arg(dir)
        .arg(serde_json::to_string(cfg).unwrap())
        .arg(serde_json::to_string(ops).unwrap())
        .stdin(std::process::Stdio::null())
        .stdout(std::process::Stdio::from(f))
        .stderr(std::process::Stdio::null())
        .spawn();
    let Ok(mut child) = spawned else { return res };
    let t0 = Instant::now();
    let status = loop {
        match child.try_wait() {
            Ok(Some(st)) => break Some(st),
            Ok(None) => {}
            Err(_) => break None,
        }
        if t0.elapsed() > Duration::from_secs(150) {
            let _ = child.kill();
            let _ = child.wait();
            break None;
        }
        std::thread::sleep(Duration::from_micros(if t0.elapsed() < Duration::from_millis(50) { 300 } else { 2000 }));
    };
    let text = std::fs::read_to_string(outfile).unwrap_or_default();
    let mut done = false;
    for line in text.lines() {
        if line == "\"done\"" {
            done = true;
        } else if let Ok(o) = serde_json::from_str::<Out>(line) {
            res.steps.push(o);
        } else if let Ok(v) = serde_json::from_str::<serde_json::Value>(line) {
            if let Some(p) = v.get("open_failed") {
                res.open_failed = Some(p.as_str().unwrap_or("").to_string());
                done = true;
            }
        }
    }
    res.end = match status {
        None => "wall-cap".into(),
        Some(st) if st.success() && done => "done".into(),
        Some(st) => match st.signal() {
            Some(libc::SIGXCPU) | Some(libc::SIGKILL) => "cpu-cap".into(),
            Some(s) => format!("died: signal {s}"),
            None => format!("died: exit code {:?}", st.code()),
        },
    };
    res
}

// ---------------------------------------------------------------------------------------------
// file layout (parsed by the harness itself, not by the code under test)

pub fn crc32(data: &[u8]) -> u32 {
    let mut c = !0u32;
    for &b in data {
        c ^= b as u32;
        for _ in 0..8 {
            c = if c & 1 != 0 { (c >> 1) ^ 0xEDB8_8320 } else { c >> 1 };
        }
    }
    !c
}

fn varint(b: &[u8], p: &mut usize) -> Option<u64> {
    let mut x = 0u64;
    for i in 0..10 {
        let byte = *b.get(*p)?;
        *p += 1;
        x |= ((byte & 0x7f) as u64) << (7 * i);
        if byte & 0x80 == 0 {
            return Some(x);
        }
    }
    None
}

/// (offset, length) of every block listed in an `.idx` file.
fn parse_idx(data: &[u8]) -> Option<Vec<(usize, usize)>> {
    if data.len() < 24 {
        return None;
    }
    let (body, foot) = data.split_at(data.len() - 24);
    if foot[0..4] != [0, 0, 0x23, 0x33] {
        return None;
    }
    let count = u64::from_be_bytes(foot[4..12].try_into().unwrap());
    let mut p = 0usize;
    let mut v = vec![];
    while p < body.len() {
        let l = varint(body, &mut p)? as usize;
        let end = p.checked_add(l)?;
        if end > body.len() {
            return None;
        }
        let (mut off, mut len) = (0u64, 0u64);
        while p < end {
            let key = varint(body, &mut p)?;
            match (key >> 3, key & 7) {
                (2, 0) => off = varint(body, &mut p)?,
                (3, 0) => len = varint(body, &mut p)?,
                (_, 0) => {
                    varint(body, &mut p)?;
                }
                (_, 2) => {
                    let l = varint(body, &mut p)? as usize;
                    p = p.checked_add(l)?;
                }
                (_, 5) => p += 4,
                (_, 1) => p += 8,
                _ => return None,
            }
        }
        if p != end {
            return None;
        }
        v.push((off as usize, len as usize));
    }
    (v.len() as u64 == count).then_some(v)
}

#[derive(Clone, Debug)]
struct FileInfo {
    rel: PathBuf,
    is_idx: bool,
    col: usize,
    bytes: Vec<u8>,
    /// `.col`: the blocks; `.idx`: empty
    blocks: Vec<(usize, usize)>,
    /// the layout was recognised and every stored CRC matches the harness' own CRC-32
    crc_ok: bool,
}

impl FileInfo {
    /// Byte ranges covered by a checksum.
    fn covered(&self) -> Vec<(usize, usize)> {
        if self.is_idx {
            if self.bytes.len() >= 24 { vec![(0, self.bytes.len() - 24)] } else { vec![] }
        } else {
            self.blocks.iter().filter(|b| b.1 >= 16).map(|b| (b.0, b.0 + b.1 - 12)).collect()
        }
    }
}

fn resolve(pos: &Pos, len: usize, blocks: &[(usize, usize)]) -> usize {
    if len == 0 {
        return 0;
    }
    match pos {
        Pos::Frac(f) => (*f as usize * len) >> 16,
        Pos::FracPlus(f, o) => (((*f as usize * len) >> 16) + *o as usize).min(len - 1),
        Pos::End(e) => len - 1 - (*e as usize).min(len - 1),
        Pos::Trailer(b, e) => {
            if blocks.is_empty() {
                return len - 1 - (*e as usize).min(len - 1);
            }
            let blk = blocks[(*b as usize * blocks.len()) >> 16];
            let end = (blk.0 + blk.1).min(len);
            end - 1 - (*e as usize).min(end - 1)
        }
    }
}

/// Overwrite 4 bytes at `w` so that the CRC-32 of `buf[cov]` changes by exactly `target`.
fn collide(buf: &mut [u8], cov: (usize, usize), w: usize, target: u32) -> bool {
    let base = crc32(&buf[cov.0..cov.1]);
    let mut basis = [(0u32, 0u32); 32];
    for j in 0..32 {
        buf[w + j / 8] ^= 1 << (j % 8);
        let mut d = crc32(&buf[cov.0..cov.1]) ^ base;
        buf[w + j / 8] ^= 1 << (j % 8);
        let mut m = 1u32 << j;
        for b in (0..32).rev() {
            if (d >> b) & 1 == 0 {
                continue;
            }
            if basis[b].0 == 0 {
                basis[b] = (d, m);
                break;
            }
            d ^= basis[b].0;
            m ^= basis[b].1;
        }
    }
    let (mut t, mut sel) = (target, 0u32);
    for b in (0..32).rev() {
        if (t >> b) & 1 == 1 {
            if basis[b].0 == 0 {
                return false;
            }
            t ^= basis[b].0;
            sel ^= basis[b].1;
        }
    }
    for j in 0..32 {
        if (sel >> j) & 1 == 1 {
            buf[w + j / 8] ^= 1 << (j % 8);
        }
    }
    crc32(&buf[cov.0..cov.1]) ^ base == target
}

/// Apply a mutation. Returns the new bytes and the name of the mutation class.
fn apply(fi: &FileInfo, kind: &MutKind) -> (Vec<u8>, &'static str) {
    let mut b = fi.bytes.clone();
    let len = b.len();
    match kind {
        MutKind::Flip(p, bit) => {
            if len > 0 {
                b[resolve(p, len, &fi.blocks)] ^= 1 << (bit % 8);
            }
            (b, "flip")
        }
        MutKind::Over(p, data) => {
            let at = resolve(p, len, &fi.blocks);
            for (i, x) in data.iter().enumerate() {
                if at + i < len {
                    b[at + i] = *x;
                }
            }
            (b, "overwrite")
        }
        MutKind::Trunc(p, plus) => {
            let at = (resolve(p, len, &fi.blocks) + *plus as usize).min(len);
            b.truncate(at);
            (b, "truncate")
        }
        MutKind::ZeroSuffix(p) => {
            let at = resolve(p, len, &fi.blocks);
            b[at..].fill(0);
            (b, "zero-suffix")
        }
        MutKind::Collide(p, d) => {
            let target = DELTAS[*d as usize % DELTAS.len()];
            let covs: Vec<(usize, usize)> = fi.covered().into_iter().filter(|c| c.1 - c.0 >= 8).collect();
            if !fi.crc_ok || covs.is_empty() {
                // layout not recognised: fall back to a plain 4-byte overwrite
                let at = resolve(p, len, &fi.blocks);
                for i in 0..4 {
                    if at + i < len {
                        b[at + i] ^= 0x5a;
                    }
                }
                return (b, "overwrite");
            }
            let Pos::Frac(f) = p else { unreachable!() };
            let cov = covs[(*f as usize * covs.len()) >> 16];
            // window inside the body (for a block: not in the 4-byte type field)
            let room = cov.1 - cov.0 - if fi.is_idx { 4 } else { 8 };
            let w = cov.0 + ((*f as usize).wrapping_mul(2654435761) >> 7) % (room + 1);
            if collide(&mut b, cov, w, target) { (b, "crc-delta") } else { (fi.bytes.clone(), "crc-delta") }
        }
    }
}

/// Which part of the file a mutation touched.
fn region(fi: &FileInfo, new: &[u8]) -> String {
    let old = &fi.bytes;
    if new.len() < old.len() {
        return if new.is_empty() { "truncated-empty".into() } else { "truncated".into() };
    }
    let changed: Vec<usize> = (0..old.len()).filter(|&i| old[i] != new[i]).collect();
    if changed.is_empty() {
        return "unchanged".into();
    }
    let mut parts = BTreeSet::new();
    if fi.is_idx {
        let n = old.len();
        if n >= 24 && new[n - 12..].iter().all(|&x| x == 0) {
            return if changed.iter().any(|&i| i < n - 12) { "footer-ck-zeroed+more".into() } else { "footer-ck-zeroed".into() };
        }
        for &i in &changed {
            let back = n - 1 - i;
            parts.insert(match back {
                0..=7 => "cksum",
                8..=11 => "cktype",
                12..=19 => "count",
                20..=23 => "magic",
                _ => "entries",
            });
        }
    } else {
        for blk in &fi.blocks {
            let end = blk.0 + blk.1;
            if blk.1 >= 16 && end <= new.len() && new[end - 12..end].iter().all(|&x| x == 0) && changed.iter().any(|&i| i >= blk.0 && i < end) {
                return if changed.iter().all(|&i| i >= end - 12 && i < end) { "trailer-ck-zeroed".into() } else { "trailer-ck-zeroed+more".into() };
            }
        }
        for &i in &changed {
            let Some(blk) = fi.blocks.iter().find(|b| i >= b.0 && i < b.0 + b.1) else {
                parts.insert("outside");
                continue;
            };
            let back = blk.0 + blk.1 - 1 - i;
            parts.insert(match back {
                0..=7 => "cksum",
                8..=11 => "cktype",
                12..=15 => "type",
                _ => "body",
            });
        }
    }
    parts.into_iter().collect::<Vec<_>>().join("+")
}

// ---------------------------------------------------------------------------------------------
// building the database

struct Built {
    files: Vec<FileInfo>,
    /// `.col` size of each of A's row-sets
    rowset_sizes: Vec<usize>,
}

fn copy_dir(from: &Path, to: &Path) -> std::io::Result<()> {
    let _ = std::fs::remove_dir_all(to);
    std::fs::create_dir_all(to)?;
    for e in std::fs::read_dir(from)?.flatten() {
        let p = e.path();
        let t = to.join(e.file_name());
        if p.is_dir() {
            copy_dir(&p, &t)?;
        } else {
            std::fs::copy(&p, &t)?;
        }
    }
    Ok(())
}

fn rowset_dirs(base: &Path) -> Vec<String> {
    let mut v: Vec<String> = std::fs::read_dir(base)
        .map(|rd| {
            rd.flatten()
                .filter(|e| e.path().is_dir())
                .map(|e| e.file_name().to_string_lossy().to_string())
                .filter(|n| n.split_once('_').is_some_and(|(a, b)| a.parse::<u64>().is_ok() && b.parse::<u64>().is_ok()))
                .collect()
        })
        .unwrap_or_default();
    v.sort();
    v
}

fn build(s: &Shape, base: &Path) -> Result<Built, String> {
    let cfg = cfg_of(s, false);
    let nc = ncols(s);
    let rows: Vec<Row> = s.rows.iter().map(|r| arow(s, r)).collect();
    let mut cuts: Vec<usize> = s.cuts.iter().map(|c| (*c as usize * rows.len()) >> 16).filter(|c| *c > 0 && *c < rows.len()).collect();
    cuts.sort();
    cuts.dedup();
    cuts.push(rows.len());
    let brows = Model::new(s).b;
    let a_prefix = block_on(async {
        let db = open_disk(&cfg, base).await?;
        let mut ddl = format!(
            "create table a (k int not null{}, s varchar{}",
            if s.pk { " primary key" } else { "" },
            if s.s_null { "" } else { " not null" }
        );
        if nc == 3 {
            ddl.push_str(if s.third == 1 { ", n int" } else { ", n bigint" });
        }
        ddl.push(')');
        let mut stmts = vec![ddl];
        let mut from = 0;
        for c in &cuts {
            if *c > from {
                stmts.push(insert_sql("a", &rows[from..*c]));
            }
            from = *c;
        }
        for st in &stmts {
            let o = exec(&db, st).await;
            if !o.is_ok() {
                return Err(format!("build: {st:.60}: {}", o.brief()));
            }
        }
        let dirs = rowset_dirs(base);
        let prefix = dirs.first().and_then(|d| d.split_once('_')).map(|x| x.0.to_string());
        for st in ["create table b (k int not null, v varchar)".to_string(), insert_sql("b", &brows)] {
            let o = exec(&db, &st).await;
            if !o.is_ok() {
                return Err(format!("build: {st:.60}: {}", o.brief()));
            }
        }
        if s.clean {
            shutdown(&db).await?;
        } else {
            settle().await;
        }
        prefix.ok_or_else(|| "build: no row-set directory".to_string())
    })
    .map_err(|p| format!("build panicked: {p}"))??;
    let mut files = vec![];
    let mut rowset_sizes = vec![];
    for d in rowset_dirs(base) {
        if d.split_once('_').map(|x| x.0) != Some(a_prefix.as_str()) {
            continue;
        }
        let mut size = 0;
        for c in 0..nc {
            let idx_rel = PathBuf::from(&d).join(format!("{c}.idx"));
            let col_rel = PathBuf::from(&d).join(format!("{c}.col"));
            let idx = std::fs::read(base.join(&idx_rel)).map_err(|e| format!("{}: {e}", idx_rel.display()))?;
            let col = std::fs::read(base.join(&col_rel)).map_err(|e| format!("{}: {e}", col_rel.display()))?;
            size += col.len();
            let blocks = parse_idx(&idx);
            let mut ok = blocks.is_some() && crc32(&idx[..idx.len() - 24]) as u64 == u64::from_be_bytes(idx[idx.len() - 8..].try_into().unwrap());
            let blocks = blocks.unwrap_or_default();
            for b in &blocks {
                let end = b.0 + b.1;
                ok &= b.1 >= 16 && end <= col.len() && crc32(&col[b.0..end - 12]) as u64 == u64::from_be_bytes(col[end - 8..end].try_into().unwrap());
            }
            ok &= blocks.iter().map(|b| b.1).sum::<usize>() == col.len();
            files.push(FileInfo { rel: col_rel, is_idx: false, col: c, bytes: col, blocks: if ok { blocks } else { vec![] }, crc_ok: ok });
            files.push(FileInfo { rel: idx_rel, is_idx: true, col: c, bytes: idx, blocks: vec![], crc_ok: ok });
        }
        rowset_sizes.push(size);
    }
    if files.is_empty() {
        return Err("build: table a has no files".into());
    }
    Ok(Built { files, rowset_sizes })
}

// ---------------------------------------------------------------------------------------------
// oracle

/// Whether a compaction pass may read A's row-sets (two of them fit the target size).
fn may_compact(sizes: &[usize], target: usize) -> bool {
    let mut s = sizes.to_vec();
    s.sort();
    s.len() >= 2 && s[0] + s[1] <= target
}

/// Whether the bytes of a column file may have been read before the current statement.
/// None for an index file (read once, at open) and for a block whose trailer says "no checksum"
/// (never verified, so the stage does not matter): those are named by the file region alone.
fn stage(kind: &str, reg: &str, failed_before: bool, compactor: bool) -> Option<&'static str> {
    match (kind, failed_before, compactor) {
        _ if reg.starts_with("trailer-ck-zeroed") => None,
        ("col", true, _) => Some("after-failed-read"),
        ("col", false, true) => Some("after-compactor-read"),
        _ => None,
    }
}

struct Judged {
    /// (signature, message) of the violation, if any
    bad: Option<(String, String)>,
    outcome: &'static str,
}

fn judge(s: &Shape, ops: &[Op], sqls: &[COp], kind: &str, reg: &str, sizes: &[usize], res: &RunRes) -> Judged {
    let mut m = Model::new(s);
    // the model in which every insert is acknowledged (the one the SQL text was made from)
    let mut plan = Model::new(s);
    let mut sizes = sizes.to_vec();
    let mut compactor = may_compact(&sizes, s.rowset);
    let mut failed_before = false;
    let mut detected = false;
    let has_b_from = |i: usize| ops[i..].iter().any(|o| *o == Op::B);
    let bad = |sig: String, msg: String| Judged { bad: Some((sig, msg)), outcome: "violation" };
    if let Some(p) = &res.open_failed {
        return if has_b_from(0) {
            bad(format!("{kind}:open-fails-other-table-unreadable"), format!("opening the database fails ({p:.120}), so table b is unreadable"))
        } else {
            Judged { bad: None, outcome: "open-failed" }
        };
    }
    for (i, op) in ops.iter().enumerate() {
        let Some(out) = res.steps.get(i) else {
            let what = match &sqls[i] {
                COp::Sql(q) => q.as_str(),
                COp::Tick => "tick",
            };
            // what a misbehaviour of this statement is called: for a column file it matters whether
            // the data was read before (by a failed query or by the compactor), an index file is
            // read once, when the database is opened
            let sym = |what: &str| match stage(kind, reg, failed_before, compactor) {
                Some(st) => format!("{kind}:{what}-{st}"),
                None => format!("{kind}:{reg}:{what}"),
            };
            return match res.end.as_str() {
                "cpu-cap" => bad(sym("hang"), format!("statement #{i} `{what:.60}` did not return within 10 s of CPU time")),
                "wall-cap" | "harness-error" => Judged { bad: None, outcome: "wall-cap" },
                e => {
                    if has_b_from(i) {
                        bad(sym("process-dies"), format!("the process died at statement #{i} `{what:.60}` ({e}); table b is unreadable"))
                    } else {
                        Judged { bad: None, outcome: "process-died" }
                    }
                }
            };
        };
        match op {
            Op::Tick => {}
            Op::Ins => {
                let row = plan.ack_insert();
                if out.is_ok() {
                    m.rows.push(row);
                    sizes.push(0);
                }
            }
            Op::B => {
                let exp = m.expect(op).unwrap();
                match out {
                    Out::Rows(r) if sorted(r.clone()) == exp => {}
                    Out::Rows(r) => {
                        return bad(
                            format!("{kind}:{reg}:other-table-wrong-rows"),
                            format!("statement #{i} select * from b: expected {} got {}", fmt_rows(&exp), fmt_rows(&sorted(r.clone()))),
                        );
                    }
                    o => return bad(format!("{kind}:{reg}:other-table-query-fails"), format!("statement #{i} select * from b fails: {}", o.brief())),
                }
            }
            _ => {
                let exp = m.expect(op).unwrap();
                match out {
                    Out::Rows(r) if sorted(r.clone()) == exp => {}
                    Out::Rows(r) => {
                        let sig = match stage(kind, reg, failed_before, compactor) {
                            Some(st) => format!("{kind}:wrong-rows-{st}"),
                            None if kind == "idx" || reg.starts_with("trailer-ck-zeroed") => format!("{kind}:{reg}:wrong-rows"),
                            None => format!("{kind}:{reg}:first-read-wrong-rows"),
                        };
                        let q = match &sqls[i] {
                            COp::Sql(q) => q.clone(),
                            _ => String::new(),
                        };
                        return bad(
                            sig,
                            format!(
                                "statement #{i} `{q}` returned Ok with {} rows that are not the stored rows (expected {} rows): got {} expected {}",
                                r.len(),
                                exp.len(),
                                fmt_rows(&sorted(r.clone())),
                                fmt_rows(&exp)
                            ),
                        );
                    }
                    _ => {
                        failed_before = true;
                        detected = true;
                    }
                }
            }
        }
        // from now on a compaction pass (at a tick, or whenever else the clock moves) may read a
        compactor |= may_compact(&sizes, s.rowset);
    }
    Judged { bad: None, outcome: if detected { "detected" } else { "original-rows" } }
}

// ---------------------------------------------------------------------------------------------
// the test

fn test(ctx: &Ctx, case: &Case, st: &mut Stats) -> Verdict {
    let s = &case.shape;
    if s.rows.is_empty() || s.b_rows.is_empty() || case.muts.is_empty() {
        return Verdict::Discard("empty-case");
    }
    let root = ctx.case_dir("c18");
    let base = root.join("base");
    if std::fs::create_dir_all(&base).is_err() {
        return Verdict::Discard("harness-io");
    }
    let _ = take_panics();
    let built = match build(s, &base) {
        Ok(b) => b,
        Err(_) => return Verdict::Discard("build-failed"),
    };
    let ops = effective_ops(&case.ops);
    // SQL text of the ops (the model state at each op assumes every insert is acknowledged)
    let mut m = Model::new(s);
    let mut sqls = vec![];
    for op in &ops {
        sqls.push(m.sql(op));
        if *op == Op::Ins {
            m.ack_insert();
        }
    }
    st.class(if s.clean { "shape:clean-shutdown" } else { "shape:killed" });
    st.class(&format!("shape:rowsets={}", built.rowset_sizes.len().min(4)));
    if may_compact(&built.rowset_sizes, s.rowset) {
        st.class("shape:compaction-at-open");
    }
    for (name, on) in [
        ("ops:tick", ops.contains(&Op::Tick)),
        ("ops:insert", ops.contains(&Op::Ins)),
        ("ops:insert-then-tick", ops.iter().position(|o| *o == Op::Ins).is_some_and(|i| ops[i..].contains(&Op::Tick))),
        ("ops:two-or-more-full-reads", ops.iter().filter(|o| matches!(o, Op::All | Op::Range(..))).count() >= 2),
        ("ops:count", ops.contains(&Op::Count)),
        ("ops:b-before-a-read", ops.iter().position(|o| *o == Op::B) < ops.iter().position(|o| matches!(o, Op::All | Op::Col(_) | Op::Range(..)))),
    ] {
        if on {
            st.class(name);
        }
    }
    let mut btypes = BTreeSet::new();
    for f in built.files.iter().filter(|f| !f.is_idx) {
        for b in &f.blocks {
            btypes.insert(f.bytes[b.0 + b.1 - 13]);
        }
        st.class(&format!("blocks-per-col-file:{}", f.blocks.len().min(5)));
    }
    for t in &btypes {
        st.class(&format!("shape:block-type={t}"));
    }
    st.class(if built.files.iter().all(|f| f.crc_ok) { "layout:crc-verified" } else { "layout:unrecognised" });

    // the pristine database answers like the model (both cache sizes)
    let run = root.join("run");
    for small in [false, true] {
        if copy_dir(&base, &run).is_err() {
            return Verdict::Discard("harness-io");
        }
        let mut steps = vec![];
        let r = run_ops(&cfg_of(s, small), &run, &sqls, true, |o| steps.push(o.clone()));
        st.eval();
        let res = RunRes { open_failed: r.err(), steps, end: "done".into() };
        if let Some(p) = &res.open_failed {
            return fail("pristine:open-fails", format!("the unmodified database cannot be opened with checksums on: {p}"));
        }
        let j = judge(s, &ops, &sqls, "pristine", "none", &built.rowset_sizes, &res);
        if let Some((sig, msg)) = j.bad {
            // Ok with other rows than the model on an unmodified database: not this property
            if sig.contains("wrong-rows") {
                return Verdict::Discard("pristine-differs-from-model");
            }
            return fail(sig, format!("unmodified database: {msg}"));
        }
        if j.outcome != "original-rows" {
            let first = res.steps.iter().find(|o| !o.is_ok()).map(|o| o.brief()).unwrap_or_default();
            return fail("pristine:query-fails", format!("a query on the unmodified database fails with checksums on: {first}"));
        }
    }

    let out = root.join("child.out");
    let model = Model::new(s);
    // development aid: RLV_C18_CENSUS=1 only counts the failure signatures (classes `finding:*`)
    let census = !ctx.strict && std::env::var("RLV_C18_CENSUS").is_ok();
    // a failure that no open finding lists is reported in preference to a listed one (also in a
    // replay, where listed failures are not tolerated but would otherwise hide the new one)
    let listed = |sig: &str| ctx.known.open_for(&ctx.prop).any(|f| f.signatures.iter().any(|x| x == sig));
    let mut unknown: Option<(String, String)> = None;
    let mut known: Option<(String, String)> = None;
    // a child that could not be started or exceeded the wall-clock cap gives no verdict
    let mut no_verdict = false;
    for mu in &case.muts {
        let of_kind: Vec<&FileInfo> = built.files.iter().filter(|f| f.is_idx == mu.idx).collect();
        let fi = of_kind[(mu.file as usize * of_kind.len()) >> 16];
        let (bytes, mclass) = apply(fi, &mu.kind);
        let reg = region(fi, &bytes);
        if reg == "unchanged" {
            st.class("mutation:no-byte-changed");
            continue;
        }
        let kind = if fi.is_idx { "idx" } else { "col" };
        if copy_dir(&base, &run).is_err() || std::fs::write(run.join(&fi.rel), &bytes).is_err() {
            return Verdict::Discard("harness-io");
        }
        let res = run_child(&run, &cfg_of(s, mu.small_cache), &sqls, &out);
        st.eval();
        let j = judge(s, &ops, &sqls, kind, &reg, &built.rowset_sizes, &res);
        st.class(&format!("kind:{kind}"));
        st.class(&format!("mutation:{mclass}"));
        st.class(&format!("region:{kind}:{reg}"));
        st.class(&format!("cache:{}", if mu.small_cache { 1 } else { 1024 }));
        st.class(&format!("outcome:{kind}:{}", j.outcome));
        no_verdict |= j.outcome == "wall-cap";
        let first_read = ops.iter().find(|o| model.reads(o, fi.col));
        if let Some(fr) = first_read {
            let frk = match fr {
                Op::All => 0,
                Op::Col(_) => 1,
                _ => 2,
            };
            st.nontrivial((s.block, s.third, s.s_null, kind, fi.col, &reg, mclass, mu.small_cache, frk, j.outcome));
        }
        if let Some((sig, msg)) = j.bad {
            let lo = (0..bytes.len().min(fi.bytes.len())).find(|&i| bytes[i] != fi.bytes[i]).unwrap_or(bytes.len());
            let hi = (0..bytes.len().min(fi.bytes.len())).rfind(|&i| bytes[i] != fi.bytes[i]).map(|i| i + 1).unwrap_or(fi.bytes.len());
            let full = format!(
                "{} at bytes {lo}..{hi} of {} ({} bytes, column {}; region {reg}; cache {}): {msg}",
                mclass,
                fi.rel.display(),
                fi.bytes.len(),
                COLS[fi.col],
                if mu.small_cache { 1 } else { 1024 }
            );
            if census {
                st.class(&format!("finding:{sig}"));
                if let Ok(mut f) = std::fs::OpenOptions::new().append(true).open(std::env::var("RLV_C18_CENSUS").unwrap_or_default()) {
                    use std::io::Write;
                    let _ = writeln!(f, "{sig}\t{:.400}\t{}", full.replace('\n', " "), serde_json::to_string(&(&case.shape.block, case.shape.clean, &case.ops, mu)).unwrap());
                }
            } else if listed(&sig) {
                st.class(&format!("known:{sig}"));
                known.get_or_insert((sig, full));
            } else if unknown.is_none() {
                unknown = Some((sig, full));
                break;
            }
        }
    }
    let _ = std::fs::remove_dir_all(&root);
    match unknown.or(known) {
        Some((sig, msg)) => fail(sig, msg),
        None if no_verdict => Verdict::Discard("child-without-verdict"),
        None => Verdict::Pass,
    }
}

pub fn def() -> PropDef {
    PropDef {
        id: "C18",
        level: "fault_enumeration",
        rule: "a case is a generated two-table database (block size, row-set size, key, nullability, third column, \
               1-3 INSERTs, clean shutdown or kill) built with CRC32 on a real directory, 1-16 mutations of table a's \
               .col/.idx files (bit flip, 1-16 byte overwrite, truncation, zero-filled suffix, 4-byte overwrite with a \
               chosen CRC-32 delta; positions sampled over the file, its last 40 bytes and block trailers; part 'sweep': \
               every bit flip and truncation inside an 8-byte window) and a query sequence; every mutated copy is opened in a child process (one evaluation each). A mutated copy is \
               non-trivial if at least one byte changed and the sequence contains a query that reads the column of the \
               mutated file; distinct = (block size, column types, file kind, column, file region, mutation class, \
               cache size, kind of first reading query, outcome)",
        assumptions: vec![
            "mutations never produce a full CRC-32 collision (the 4-byte chosen-delta overwrite always uses a non-zero delta)",
            "the harness' own parser of the .idx format (protobuf BlockIndex entries + 24-byte footer) and its CRC-32 agree with the files written by the unmodified tree (checked on every case, class layout:crc-verified)",
            "a compaction pass can only read table a when two of its row-sets fit target_rowset_size together",
        ],
        min_nontrivial: 40,
        parts: vec![
            part("mutations", 450, 5000, |_ctx| case_strategy(), test),
            part("sweep", 8, 800, |_ctx| sweep_strategy(), test),
        ],
    }
}
